#!/usr/bin/env python3
"""Regenerates /verif/MANIFEST.json from the table below (single source of truth)."""
import json
import os

HERE = os.path.dirname(os.path.dirname(os.path.abspath(__file__)))

NOTE = ("Trusted base: rustc nightly front end + MIR builder, the flacfacts exporter, the Python rules and the "
        "oracle tables. Decides the named structural clause (a necessary condition), not the whole behaviour; "
        "see DESIGN.md section 4 for what is not decided.")

# id -> (technique, text, design_ref)   (claimed properties)
CLAIMED = {
    "C12": ("ERRDISC: type-directed error-discipline analysis of every sink call site in MIR + PREFIX/short-circuit (first consumer of every sink-error Result is `?`/return) + ERRDISC/overwritten (no sink-error Result is reassigned or dropped before it is looked at, path-sensitive) + RESET on the scratch sinks and the C08 write effect (what a frame forwards from a scratch sink counts from the last clear in the same body) + LOCKORDER (C10: no reusable storage is re-borrowed on the error path of a sink write)",
            "Every call site producing Result<_, S::Error|OutputError<S>> for a caller-supplied sink S is shown to "
            "propagate the error to the return place; none is unwrapped, swallowed or dead. Exhaustive over call "
            "sites, which is what 'for every k-th sink operation' quantifies over.", "4/C12"),
    "C06": ("MPT/PAIR path rules over MIR CFGs with role-based anchors and wrapper summaries + ERRDISC in par + WORKERS/non-zero + worker-count dataflow (the non-zero count sizes pool, spawns and stop tokens unmodified) + QUEUE/consumers (one receiving function per protocol channel) + QUEUE/drain (every bounded channel with a blocking sender has a blocking receiver, not only a poll) + the feeder hand-on rule of C05 (a buffer id taken from the pool is enqueued before the next one is taken)",
            "Every return path of the par entry point (incl. every `?` edge) after the worker spawn passes the stop "
            "tokens, the worker joins and the hashing-thread stop+join; the worker returns every popped buffer; no "
            "SourceError/EncodeError is unwrapped or handed to a diverging closure. These are the per-path "
            "obligations behind 'for every fault position'. Liveness under interleavings is not decided.", "4/C06"),
    "C07": ("CHAIN + RANGE extraction from MIR vs documented ranges + ERRDISC on VerifyError + compile-fail "
            "witnesses (TYPESTATE) for Verified<T> + AGREE/predictor-order (shared with C02: configured order, stored order and residual warm-up agree)",
            "Exhaustive over the config type tree: every nested Verify field is verified and propagated by its "
            "parent, every extracted range equals the documented one (float range incl. NaN), Verified<T> is only "
            "constructed on the Ok edge of verify() or in an unsafe fn, and six violating client programs fail to "
            "compile (twins compile). Decides 'accepts iff in range'; not 'accepted configs never panic'.", "4/C07"),
    "C16": ("CONSTARG + MPT + operand dataflow on the CRC verification sites; ERRDISC on nom::Err; PANICSITE "
            "enumeration from parser::stream with a per-site SAFE table + FRAMING (frames read until end of input with CRC checks on, no error-swallowing combinator) + IMPLICIT (bounds/overflow/shift/division assertions on the stream-parse path discharged from field widths read, guards, loop ranges and payload bounds; 5 SAFE entries resting on the STREAMINFO invariant); PANICSITE also lists fixed-capacity (heapless) containers filled through FromIterator / Extend, directly or through a generic helper instantiated with one, and range slicing / copy_from_slice / split_at library calls",
            "CRC-8/CRC-16 verification is shown to be unconditional on the stream path, on every Ok path, an "
            "equality of parsed and computed value, spanning the whole header/frame, with degree-8/16 generators "
            "(so every burst <= 8/16 bits is detected); all explicit panic constructs reachable from the stream "
            "parser are enumerated and individually discharged; implicit (arithmetic/index) panics are not decided.",
            "4/C16"),
    "C18": ("PANICSITE (explicit panic constructs from constructors/Verify impls, SAFE table with machine-checked "
            "premises) + DIVGUARD + CASTCHECK + block-size lower-bound RANGE + RANGE/twos-complement (sample checks are the exact W-bit range) + IMPLICIT (every bounds/overflow/shift/division assertion met while summarising the constructors and Verify impls is discharged from the facts verified on the paths to it); PANICSITE includes fixed-capacity FromIterator / Extend fills",
            "Narrow: every explicit panic construct, every division by a runtime value, every narrowing cast of a "
            "constructor argument and every zero-able block size in the constructor/verify universe is an obligation "
            "that is discharged structurally (dominating `?`-propagated range check) or reported. Overflow/shift/"
            "The serialise->parse identity is not decided; 'exactly the number of bits it reports' is decided by the C08 effect rules (EFFECT write=count_bits, residual nest, UTF-8 length, extra bits), which this check runs as well.", "4/C18"),
    "C17": ("CASTCHECK + PARAMCHECK + dominance ORDER of verification before use + ERRDISC on VerifyError in the "
            "encoder entry points + SCAN/samples (every Ok path of the sample verification passes the per-channel scan) + SCAN/bounds (the path conditions of the Ok return, with the crate's array scanners replaced by their meaning, evaluated on boundary rows of every width: accept iff -2^(b-1) <= min and max <= 2^(b-1)-1) + ENTRY/non-empty-block + RANGE/block-size-argument (C04: the block_size argument of both stream encoders is verified into 16..=65535 on every Ok path)",
            "Every narrowing cast of a public API argument, every length/byte-width argument of a fill, the "
            "verification-before-use order in the frame and stream entry points and every Result<_, VerifyError> in "
            "the encoder modules is an obligation decided on the MIR (dominating `?`-propagated checks). Hangs and "
            "numeric behaviour of in-range values are not decided.", "4/C17"),
    "C09": ("GUARD: the subframe chooser's result summarised as a case tree by the effect interpreter (Option/bool combinators, match, early returns all become cases); every leaf is verbatim, constant or a candidate whose path carries count_bits(candidate) < bound <= verbatim baseline; GUARD/stereo: control dependence of the selected assignment on `<` between sums of real count_bits (loop or argmin fold) with backward "
            "slices of the guard operands + the C08 EFFECT rules (the guards compare count_bits values, which are emitted sizes only if write == count_bits) + PLAIN-STATE / STALE-READ of C10 (no coding decision is taken from cross-call state)",
            "Every non-verbatim candidate reaches the subframe chooser's result only through a `<` between its real "
            "BitRepr::count_bits and a bound derived from the verbatim baseline; the stereo assignment changes only "
            "under a `<` of real bit-count sums. A necessary condition for 'never larger than verbatim'; the "
            "saturating cost tables are not decided.", "4/C09"),
    "C04": ("MPT/dominance on the role-found stream encoders + WHO-CALLS/WHO-WRITES on the STREAMINFO bound fields "
            "+ backward slices of the written values + RANGE/block-size-argument + ACCUM/bounds (the four bounds are running min/max from the identities, frame value = count_bits/8 resp. block size) + the C08 EFFECT rules (frame-size bounds are count_bits/8 in one mode and serialised bytes in the other)",
            "Bounds are initialised before the first frame in both encoders, every frame enters through the "
            "bound-updating entry, frame-size bounds come from count_bits/8, and the final short frame cannot lower "
            "the minimum block size (disjunctive rule accepting either repair style). Numeric values are not "
            "decided.", "4/C04"),
    "C10": ("STATE-ENUM over static/type facts + RESET append-before-define typestate (interprocedural, closures "
            "included) + STALE-READ first-access analysis (interprocedural: the first access of a call to the elements of a reusable buffer is a write / clear / fill, `resize` does not define the retained prefix) + KEY injectivity slicing incl. control dependence (a key value chosen by a non-discriminant branch) + RECYCLE (entries removed from a keyed cache are not used again) + LOCKORDER graph; quick tier analyses default+decode and default+decode+experimental",
            "The inventory of everything that survives a call is complete (only thread-local reusable storages and "
            "immutable Freeze statics), no reusable buffer is appended to before being cleared/reset/resized, cache "
            "keys are injective in the lookup parameters, no storage is re-entered while borrowed, and the first thing a call does "
            "with the elements of a reusable buffer is never to read them (an accumulation into, or a read of, what `resize` "
            "retained from an earlier call is reported with the call chain). That the writes cover every index read later "
            "is not decided (runtime lengths).", "4/C10"),
    "C11": ("SHIFTGUARD (dominating zero-width guard for `BITS - n` shifts, call-site guards for private helpers) + "
            "CALLSET + SIBLING + FILLSTATE (storage growth dominated by a read of the word-level fill) + GROWTH/ceil (resize amount = ceil(bits/word) on a full period of the extracted summary) + LENGTH (effect summary of self.bitlength per sink operation = initial + ideal bit count, as linear forms over case leaves) + PADFORMULA + WIDTH/const + WORDCOUNT (storage length = ceil(bit length / word) preserved by every operation, summaries evaluated over offsets x counts x operand types) + TWOC/default (provided write_twoc hands the n-bit two's-complement code to a required method for n in 1..=64) + OPERAND (the mask of write_msbs and the alignment of write_lsbs, extracted by a flow-sensitive backward slice, evaluated for every n in 1..=BITS and every operand width; nothing touches the sink beside that normalisation) + DEFAULT/bytes-aligned (the provided write_bytes_aligned is align + one 8-bit write per element, in order) + DEFAULT/write-zeros (effect summary of the provided write_zeros, count-down loops in closed form, evaluated for every run length on a grid: the widths written add up to n and every value is zero) + compile-fail witnesses for the sealed operand traits",
            "Narrow: zero-width operands are guarded in every sink implementation, default methods are built only "
            "from required ones, both write_bytes_aligned overrides align first, foreign operand types cannot be "
            "written, and every operation of both in-memory sinks advances the recorded bit length by exactly the "
            "ideal count (the 'same length' clause), and which operand bits can reach the storage is decided (top-n mask / left "
            "alignment exact for every n and width). The placement arithmetic after the normalisation (shift by the fill state, carry into the next word) is not decided.", "4/C11"),
    "C20": ("XCFG: normalised MIR fingerprints of the encode/serialise closure compared across feature "
            "configurations + control-dependence obligations on the enumerated gates + (configurations with `par`) the mode-agreement rules of C05, since the feature swaps the single-thread loop for the worker pipeline; the closure follows calls through crate-local traits to the impls whose Self type the closure mentions (rapid type analysis)",
            "The set of bodies reachable from the encode and serialise entry points without entering a gate, and the "
            "MIR of each, are identical in {} / default+decode / default+decode+experimental (quick) and in all four buildable feature sets "
            "(thorough); gates are entered only under the config flags verification forces off or that select the "
            "parallel mode. Dependency feature unification is trusted.", "4/C20"),
    "C14": ("SIBLING: symbolic MIR expression shapes of the two Fill methods of FrameBuf/Context/ParContext compared "
            "with each other + FORWARD on the wrapper impls + TABLE extraction of the width/channel dispatch chains",
            "The integer and packed-byte paths are siblings: same de-interleave call and filled_size formula, same "
            "context fields updated with len/channels(/width), same empty-block handling, exactly one enqueue per "
            "fill in par mode with the context's own byte width, wrapper impls forward both methods to every "
            "component, and the width/channel dispatch tables match the const arguments/divisors of the dispatched "
            "bodies (shift (4-BPS)*8, little-endian constructor). Converted values are not decided.", "4/C14"),
    "C15": ("LAYOUT reader<->writer: field-width token sequences of every nom parser (EFFECT engine in reader mode) "
            "vs the event sequence of the matching BitRepr::write + TABLE reader<->writer on all code tables + AGREE "
            "dataflow (which read feeds which constructor argument) + WIDTH type rule on the decoder accumulator + AGREE/predictor-order on the encoder's construction sites (shared with C02) + ACCEPT/frame (the frame reader's cross-checks evaluated for the sample-size answers the writer emits) + accumulator-width at every instantiation of a generic decode helper + LASTFLAG/maintained (nothing installs metadata blocks behind add_metadata_block, shared with C02) + the history rules of C10 (RESET / STALE-READ / PLAIN-STATE cover the decoder's reusable storages) + IMPLICIT of C16 (no arithmetic assertion on the stream-parse path for values the writer can emit)",
            "Reader and writer agree on every field boundary, order and code for STREAMINFO, metadata header, frame "
            "header, all 16/16/8/16 code tables incl. extra bytes, subframe header and type codes with order "
            "formulas, raw samples, LPC parameters, residual (header, per-partition parameter, per-sample shape "
            "incl. warm-up skipping in every partition), frame and stream framing (frames until end of input with "
            "CRC checks on); decoded orders feed both warm-up and residual readers; the decoder predicts in 64 bits. "
            "Value-level inversion and Decode arithmetic are not decided.", "4/C15"),
    "C19": ("ATTR: dataflow over the serde-derive generated Serialize/Deserialize/Visitor MIR bodies (absent-field "
            "arms, key tables, tag strings) + DEFAULTS: Default::default aggregates vs the constants the docs cite + value-before-table field order",
            "Narrow: for every field of the 8 config types an absent key takes the container default (or an equal "
            "field default), missing_field errors exist only for the one undocumented required field, Serialize and "
            "Deserialize agree on key->field and tag->variant and serialise every field unconditionally, and "
            "Default::default stores exactly the documented constants. The toml crate's own behaviour is not "
            "decided.", "4/C19"),
    "C02": ("TABLE: case-tree summaries of the code-selection functions extracted from MIR and evaluated cell-wise on "
            "the rows of an RFC 9639 oracle + LAYOUT: ordered (width, value) event sequences of the writers (EFFECT "
            "engine) vs the RFC field layout + ORDER/dataflow on alignment and CRC steps + const-evaluated CRC "
            "generators + AGREE dataflow identity of predictor order / warm-up length + AGREE/partition-length (the extracted summary of the partition-order chooser evaluated on a grid: (block size >> order) > warm-up length, RFC 9639 section 9.2.7) + LASTFLAG/maintained (who can change the metadata vector maintains the is-last flags) + RANGE/rice-parameter-lanes (on every path the cost table reaches the minimum reduction through the `lane <= max_p` selection, so the 4-bit field never carries the escape code)",
            "Block-size, sample-rate, sample-size, channel and subframe-type codes equal the RFC tables on every row "
            "(uncommon sizes by interval cells, or the whole 16-bit domain of the extracted summary when a predicate "
            "is not an interval test); STREAMINFO / metadata / frame-header / LPC / residual layouts, marker, sync "
            "word, CRC-8/16 generators and coverage, byte alignment before the footer, nothing after the last "
            "frame, reserved codes never constructed, header fields sourced from the block and STREAMINFO, fixed-"
            "blocking frame number from the caller, and warm-up count = residual warm-up length = declared order. "
            "Values (CRCs, Rice parameters, residual magnitudes) are not decided.", "4/C02"),
    "C03": ("MPT on the stream encoders + dataflow identity of the stored digest / count / format values (EFFECT-engine "
            "call log) + ORDER stop->join->read on the hashing thread + hashing-loop shape + FORWARD/SIBLING on the "
            "Fill impls + STREAMINFO LAYOUT + PARAMCHECK on the digest contexts (a delivery of another byte width is refused before it is hashed) + single-consumer (only the hashing thread feeds the shared digest context)",
            "In both encoders every Ok return stores md5_digest() and len_hint.unwrap_or_else(total_samples()) of the "
            "very context every block was delivered to (the read destination is the (frame buffer, context) pair and "
            "the pair/reference impls forward both fills); the stream is created from the source's accessors; in par "
            "mode the context is read only after request_stop and finalize (which joins the hashing thread); the "
            "hashing loop ends only on the empty stop block and hashes every other block with the context's own "
            "width; STREAMINFO carries those fields in the RFC's positions. Digest values are not decided.", "4/C03"),
    "C05": ("TYPE-SHAPE on the collector + PAIR/dataflow in worker and feeder + SIBLING on the frame encoder incl. "
            "STREAMINFO read/write field disjointness + STATE-ENUM/RESET/PLAIN-STATE/KEY (no state survives a frame "
            "encoding) + worker-count dataflow + SIBLING/block-loop (both block loops hand every block on, stop only on 0 samples or an error, ask the source for exactly the block_size argument and never consult config.block_size) + STALE-READ and RECYCLE (C10) + the Context fill siblings of C14 (the two modes hash through different fills) + the C08 EFFECT rules (the modes measure frame sizes differently) + C03's MPT+FLOW/digest (both modes finish STREAMINFO from the same digest / count sources)",
            "Results are collected in Mutex<BTreeMap<usize,_>> keyed by the frame number and drained in order; number, "
            "buffer and key come from one locked buffer in the worker; the feeder numbers buffers under their lock "
            "with a counter stepping once per enqueue; both modes use the same frame encoder, which reads no "
            "STREAMINFO field the assembler writes; the worker captures only protocol objects, a STREAMINFO clone "
            "and an Arc'd configuration without interior mutability; the worker count reaches only pool size, spawn "
            "range and stop tokens; thread-local storages are reset / overwritten before use. Interleavings are not "
            "explored (structural necessary conditions only).", "4/C05"),
    "C08": ("EFFECT: bit-effect inference over the structured MIR of every BitRepr::write (loops summarised by "
            "induction-variable recognition, closures/scratch sinks inlined) compared as a normalised polynomial / "
            "case tree with the value returned by count_bits; TABLE for extra-bit writers; dataflow identities for "
            "the cached sums (32-bit sum only under max * element-count < 2^32) and the precomputed bitstream; scratch sinks count from their last clear; C11 LENGTH/WORDCOUNT on the in-memory sinks that measure the bits",
            "For 12 BitRepr impls the inferred number of bits `write` appends on every Ok path equals the symbolic "
            "value of `count_bits`; for Residual the writer's loop nest is matched structurally and count_bits is "
            "its closed form over cached sums that the constructor computes from the stored vectors; UTF-8-like "
            "number length, per-variant extra bits, whole-byte frames, and the precomputed-bitstream cache "
            "(stored bytes = own serialisation, no mutation after precompute) are decided too. The data identity "
            "of the cached quotient sum and the sinks' own behaviour (C11) are not decided.", "4/C08"),
}

NA = {
    "C01": "round-trip equality over all sample values/configurations is a numerical result; no sound static "
           "argument in reach (structural parts are decided under C02/C08/C15)",
    "C13": "optimality of a numeric cost minimisation over runtime residuals; nothing about it is visible in the "
           "shape of the code",
}

PENDING_REASON = "static rule set designed (DESIGN.md section 4) but not yet armed in this revision"

ALL = ["C%02d" % i for i in range(1, 21)]


def main():
    checks = []
    for pid in ALL:
        if pid not in CLAIMED:
            continue
        tech, text, ref = CLAIMED[pid]
        checks.append({
            "property_id": pid,
            "quick_cmd": "./check %s quick" % pid,
            "thorough_cmd": "./check %s thorough" % pid,
            "evidence_file": "/verif/evidence/%s.json" % pid,
            "replay_cmd_template": "./check %s quick --replay {path}" % pid,
            "engine": "flacfacts+rules",
            "level_claimed": {"category": "other", "text": text, "design_ref": "DESIGN.md section " + ref},
            "level_note": NOTE,
            "technique": tech,
        })
    na = []
    for pid in ALL:
        if pid in CLAIMED:
            continue
        na.append({"property_id": pid, "reason": NA.get(pid, PENDING_REASON)})
    m = {
        "version": 1,
        "setup_cmd": "./check --setup",
        "hooks": {
            "guard": "flacenc_verif",
            "enable": "none needed: static analysis reads the unmodified source (no instrumentation in /repo)",
            "baseline_off_cmd": "cd /repo && cargo test --workspace --no-fail-fast --offline",
            "source_commits": [],
            "add_only": True,
        },
        "engines": [
            {"name": "flacfacts", "path": "/verif/engine/flacfacts", "serves_properties": sorted(CLAIMED),
             "kind_free_text": "rustc_private driver (nightly) exporting MIR/type facts per feature configuration"},
            {"name": "rules", "path": "/verif/rules", "serves_properties": sorted(CLAIMED),
             "kind_free_text": "Python static rules over the exported facts (CFG, dominators, def-use, call graph)"},
        ],
        "checks": checks,
        "not_applicable": na,
        "notes": "Technique family: static analysis. Fix commits in /repo are listed in known_findings.txt.",
    }
    with open(os.path.join(HERE, "MANIFEST.json"), "w") as fh:
        json.dump(m, fh, indent=1)
        fh.write("\n")


if __name__ == "__main__":
    main()
